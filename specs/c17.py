"""C17 — modules and packages resolve according to the project layout (kernel: the path / graph computations, solver-decided)."""
import os, json
from mirsym import explore, native, lsp_replay
from mirsym.world import World
from . import projk
from .runner import Check

FILES = {
    'gleam.toml': 'name = "app"\nversion = "0.1.0"\n\n[dependencies]\ndep = "1.0"\n',
    'src/main.gleam': 'import dep_mod\nimport trans_mod\nimport sub/inner\nimport helper_t\n\npub fn main() {\n  dep_mod.helper()\n  trans_mod.deep()\n  inner.f()\n  helper_t.t()\n}\n',
    'src/sub/inner.gleam': 'pub fn f() { 1 }\n',
    'test/helper_t.gleam': 'pub fn t() { 1 }\n',
    'build/packages/dep/gleam.toml': 'name = "dep"\nversion = "1.0.0"\n\n[dependencies]\ntrans = "1.0"\n',
    'build/packages/dep/src/dep_mod.gleam': 'import trans_mod\npub fn helper() { trans_mod.deep() }\n',
    'build/packages/trans/gleam.toml': 'name = "trans"\nversion = "1.0.0"\n',
    'build/packages/trans/src/trans_mod.gleam': 'pub fn deep() { 1 }\n',
}
# (line, character) of helper / deep / f / t in src/main.gleam and where Gleam's layout rules send them
PROBES = [((6, 10), 'build/packages/dep/src/dep_mod.gleam', 'a module of a direct dependency (file below the innermost root build/packages/dep)'),
          ((7, 12), None, 'a module of a transitive dependency is not importable'),
          ((8, 8), 'src/sub/inner.gleam', 'src/sub/inner.gleam is importable as sub/inner'),
          ((9, 11), 'test/helper_t.gleam', 'test/helper_t.gleam is importable as helper_t')]


# a dependency file opened FIRST (nothing of the project loaded yet): its import of its own direct dependency must resolve
DEP_FIRST = ('build/packages/dep/src/dep_mod.gleam', [((1, 30), 'build/packages/trans/src/trans_mod.gleam', 'a file under build/packages opened first is attributed to the enclosing project')])


# a path dependency nested inside the project (not under build/packages), its file opened BEFORE the project's own: every file must
# still be attributed to the innermost root, whatever the order in which the roots were discovered
PATH_DEP = {
    'gleam.toml': 'name = "app"\nversion = "0.1.0"\n\n[dependencies]\ncore = { path = "libs/core" }\n',
    'src/app.gleam': 'import core\n\npub fn main() {\n  core.hello()\n}\n',
    'libs/core/gleam.toml': 'name = "core"\nversion = "0.1.0"\n',
    'libs/core/src/core.gleam': 'pub fn hello() { 1 }\n',
}
PATH_DEP_PROBES = [((3, 8), 'libs/core/src/core.gleam', 'a path dependency nested in the project, opened first: its files belong to the inner root')]
# two projects in one session, each with its own copy of a dependency of the same name
TWO_PROJECTS = {
    'a/gleam.toml': 'name = "a"\nversion = "0.1.0"\n\n[dependencies]\nlib = "1.0"\n',
    'a/src/a.gleam': 'import lib\n\npub fn main() {\n  lib.hello()\n}\n',
    'a/build/packages/lib/gleam.toml': 'name = "lib"\nversion = "1.0.0"\n',
    'a/build/packages/lib/src/lib.gleam': 'pub fn hello() { 1 }\n',
    'b/gleam.toml': 'name = "b"\nversion = "0.1.0"\n\n[dependencies]\nlib = "1.0"\n',
    'b/src/b.gleam': 'import lib\n\npub fn main() {\n  lib.hello()\n}\n',
    'b/build/packages/lib/gleam.toml': 'name = "lib"\nversion = "1.0.0"\n',
    'b/build/packages/lib/src/lib.gleam': 'pub fn hello() { 2 }\n',
}
TWO_PROJECTS_PROBES = [((3, 7), 'b/build/packages/lib/src/lib.gleam', 'the project opened second resolves its dependency to its OWN build/packages copy')]


def native_layout(binary):
    out, alive = lsp_replay.workspace_scenario(binary, FILES, 'src/main.gleam', [p[0] for p in PROBES])
    problems = []
    if not alive:
        problems.append('the server died on the workspace')
    for got, (pos, want, what) in zip(out, PROBES):
        if got != want:
            problems.append('%s: go-to-definition at %s lands on %s, expected %s' % (what, pos, got, want))
    out2, alive2 = lsp_replay.workspace_scenario(binary, FILES, DEP_FIRST[0], [p[0] for p in DEP_FIRST[1]])
    if not alive2:
        problems.append('the server died when a dependency file was opened first')
    for got, (pos, want, what) in zip(out2, DEP_FIRST[1]):
        if got != want:
            problems.append('%s: go-to-definition at %s of %s lands on %s, expected %s' % (what, pos, DEP_FIRST[0], got, want))
    out3, alive3 = lsp_replay.workspace_scenario(binary, PATH_DEP, 'src/app.gleam', [p[0] for p in PATH_DEP_PROBES], pre_open=['libs/core/src/core.gleam'])
    if not alive3:
        problems.append('the server died on the project with a nested path dependency')
    for got, (pos, want, what) in zip(out3, PATH_DEP_PROBES):
        if got != want:
            problems.append('%s: go-to-definition at %s of src/app.gleam lands on %s, expected %s' % (what, pos, got, want))
    out4, alive4 = lsp_replay.workspace_scenario(binary, TWO_PROJECTS, 'b/src/b.gleam', [p[0] for p in TWO_PROJECTS_PROBES], pre_open=['a/src/a.gleam'])
    if not alive4:
        problems.append('the server died with two projects open')
    for got, (pos, want, what) in zip(out4, TWO_PROJECTS_PROBES):
        if got != want:
            problems.append('%s: go-to-definition at %s of b/src/b.gleam lands on %s, expected %s' % (what, pos, got, want))
    # the package graph is assembled a SECOND time in the session (the project's gleam.toml is opened after a module): the packages of the
    # dependencies keep their dependencies
    out6, alive6 = lsp_replay.workspace_scenario(binary, FILES, DEP_FIRST[0], [p[0] for p in DEP_FIRST[1]], pre_open=['src/main.gleam', 'gleam.toml'])
    if not alive6:
        problems.append('the server died when the package graph was assembled a second time')
    for got, (pos, want, what) in zip(out6, DEP_FIRST[1]):
        if got != want:
            problems.append('after src/main.gleam and then gleam.toml were opened (second assembly of the package graph), a dependency\'s import of its own dependency: go-to-definition at %s of %s lands on %s, expected %s' % (pos, DEP_FIRST[0], got, want))
    out = out + out6
    # a declared dependency that is not installed (added to gleam.toml, `gleam deps download` not run yet): the installed ones still resolve,
    # directly and one level down
    files7 = dict(FILES)
    files7['gleam.toml'] = 'name = "app"\nversion = "0.1.0"\n\n[dependencies]\naaa_missing = "1.0"\ndep = "1.0"\nzzz_missing = "1.0"\n'
    files7['build/packages/dep/gleam.toml'] = 'name = "dep"\nversion = "1.0.0"\n\n[dependencies]\naaa_gone = "1.0"\ntrans = "1.0"\n'
    out7, alive7 = lsp_replay.workspace_scenario(binary, files7, 'src/main.gleam', [PROBES[0][0]])
    out7b, alive7b = lsp_replay.workspace_scenario(binary, files7, DEP_FIRST[0], [p[0] for p in DEP_FIRST[1]], pre_open=['src/main.gleam'])
    if not (alive7 and alive7b):
        problems.append('the server died on a project with a declared but not installed dependency')
    if out7 != [PROBES[0][1]]:
        problems.append('gleam.toml declares dependencies that are not installed next to an installed one: go-to-definition at %s of src/main.gleam lands on %s, expected %s' % (PROBES[0][0], out7, PROBES[0][1]))
    if out7b != [DEP_FIRST[1][0][1]]:
        problems.append('a dependency declares a dependency that is not installed next to an installed one: go-to-definition at %s of %s lands on %s, expected %s' % (DEP_FIRST[1][0][0], DEP_FIRST[0], out7b, DEP_FIRST[1][0][1]))
    out = out + out7 + out7b
    from . import c08
    out5, alive5 = lsp_replay.workspace_scenario(binary, c08.DEVDEP_FILES, 'test/app_test.gleam', [(3, 10)], pre_open=['src/app.gleam'])
    if not alive5:
        problems.append('the server died on the project with a dev-dependency')
    if out5 != ['build/packages/devdep/src/devdep.gleam']:
        problems.append('a dev-dependency (build/packages/devdep, listed under [dev-dependencies]) is importable from test/: go-to-definition at (3, 10) of test/app_test.gleam lands on %s, expected build/packages/devdep/src/devdep.gleam' % out5)
    return problems, out + out2 + out3 + out4 + out5


def native_names(oracle, samples):
    """translator validation of the std::path model + kernel: ide::module_name natively on the sampled paths"""
    paths = [s['path'] for s in samples]
    r = oracle.ask('modname', json.dumps({'root': '/r', 'paths': paths}))
    got = r.get('modname') if isinstance(r, dict) else None
    bad = []
    if got is None:
        return ['modname oracle: %s' % (r,)], 0
    okc = 0
    for s, g in zip(samples, got):
        want = s.get('result')
        if isinstance(g, dict):
            bad.append('native module_name panics on %r' % s['path'])
        elif (g is None) != (want is None) or (g is not None and want not in (None, 'some') and g != want):
            bad.append('module_name(%r): engine %r, native %r' % (s['path'], want, g))
        else:
            okc += 1
    return bad, okc


def main(tier, seed):
    chk = Check('C17', tier, seed)
    jobs = int(os.environ.get('VERIF_JOBS', '16'))
    projk.W = World(['glas', 'ide'], 'dev', log=chk.log)
    oracle = native.Oracle(native.build('oracle-ide'))
    found = []
    try:
        # (b) module names
        NB = [(0, 1, True), (1, 1, True), (1, 2, True), (2, 2, True), (0, 2, False), (1, 3, False), (0, 3, 'odd')]
        if tier == 'thorough':
            NB += [(2, 3, True), (3, 2, True), (1, 4, False), (0, 4, 'odd'), (1, 3, 'odd')]
        samples = []
        for args in NB:
            res, complete = explore.explore(projk.name_factory, args, jobs=jobs)
            chk.add_run('module_name: %d directories below the source directory, %d-byte %s' % (args[0], args[1], {True: 'module stem + ".gleam"', False: 'arbitrary file name', 'odd': 'stem with dots / backslashes + ".gleam"'}[args[2]]),
                        res, complete, {'directories': args[0], 'name_bytes': args[1], 'kind': str(args[2])}, nontrivial_classes=lambda c: c in ('module', 'some', 'odd:some'))
            found += [('module_name', v) for v in res.violations]
            samples += [s for cls, ss in res.samples.items() for s in ss][:6]
        bad, okc = native_names(oracle, samples)
        chk.validated += okc
        for b in bad:
            chk.inconclusive.append('translator validation FAILED: ' + b)
        chk.log('module_name: %d/%d sampled paths agree with the native ide::module_name' % (okc, len(samples)))
        # (a) lower_vfs
        LB = [(1, 2, 1, 1), (1, 2, 2, 1), (1, 2, 3, 1), (2, 1, 2, 1), (2, 1, 3, 1), (2, 2, 3, 1), (1, 1, 2, 1), (1, 2, 3, 2), (2, 1, 3, 2)]      # the root set keeps insertion order: both orders of a short and a long root
        if tier == 'thorough':
            LB += [(2, 3, 3, 1), (3, 2, 3, 1), (1, 3, 3, 1), (3, 1, 3, 1), (2, 3, 4, 1), (3, 2, 4, 1), (2, 2, 3, 2)]
        for args in LB:
            res, complete = explore.explore(projk.lower_factory, args, jobs=jobs)
            chk.add_run('lower_vfs: package roots of %d and %d components, %d file(s) of %d components, every component symbolic over {a,b,c}' % (args[0], args[1], args[3], args[2]), res, complete,
                        {'root_components': list(args[:2]), 'file_components': args[2], 'files': args[3]}, nontrivial_classes=lambda c: c.startswith('assigned:') and c != 'assigned:[]')
            found += [('lower_vfs', v) for v in res.violations]
        # (c) visible modules
        res, complete = explore.explore(projk.visible_factory, (), jobs=1)
        chk.add_run('visible_modules: three packages, six symbolic dependency edges (database answered from that graph)', res, complete, {'packages': 3}, nontrivial_classes=lambda c: c.startswith('visible:'))
        found += [('visible_modules', v) for v in res.violations]
        # (d) project root discovery: fixed path shapes, WHICH ancestor directories hold a gleam.toml is symbolic
        for sh in projk.ROOT_SHAPES:
            res, complete = explore.explore(projk.root_factory, (sh,), jobs=1)
            chk.add_run('find_gleam_project_parent on /%s with a symbolic set of gleam.toml files in its ancestor directories' % '/'.join(projk.ROOT_SHAPES[sh]), res, complete,
                        {'shape': sh, 'manifest_bits': len(projk.ROOT_SHAPES[sh]) - 1}, nontrivial_classes=lambda c: c.startswith('root:') and c != 'root:None')
            found += [('find_gleam_project_parent', v) for v in res.violations]
        # real server on an on-disk workspace
        problems, out = native_layout(lsp_replay.build_binary())
        if found:
            seen = set()
            for site, v in found:
                if site in seen:
                    continue
                seen.add(site)
                if problems:
                    chk.violation('layout:' + site, 'bounded', '%s; real server on an on-disk workspace (app + build/packages/dep + build/packages/trans): %s' % (v['why'][0][:400], problems[0]),
                                  {'kernel': site, 'cex': v['cex']}, confirmed=True)
                else:
                    chk.inconclusive.append('%s kernel: %s -- but the on-disk workspace resolves as the layout rules say (%s)' % (site, v['why'][0][:300], out))
        elif problems:
            # the on-disk scenarios are direct instances of the property (layout on disk, go-to-definition through the real server, the target the layout
            # rules prescribe): a mismatch is a natively reproduced violation also when it lies in the file-system part no kernel reaches (assemble_graph)
            for p_ in problems[:3]:
                chk.violation('layout:on-disk', 'fixture', 'real server on an on-disk workspace: %s (no kernel reaches this: graph assembly / file loading are file-system I/O)' % p_, {'kind': 'on-disk', 'problem': p_}, confirmed=True)
        else:
            chk.validated += len(PROBES) + len(DEP_FIRST[1]) + len(PATH_DEP_PROBES) + len(TWO_PROJECTS_PROBES)
            chk.log('layout: %d go-to-definition probes on four on-disk scenarios (direct / transitive dependency, dependency file opened first, nested path dependency opened first, two projects with a same-named dependency) agree with the layout rules' % (len(PROBES) + len(DEP_FIRST[1]) + len(PATH_DEP_PROBES) + len(TWO_PROJECTS_PROBES)))
    finally:
        oracle.close(); projk.W.cleanup()
    chk.assumptions += [
        'kernel claim: (a) Server::lower_vfs assigns every file to the longest package root that is a component-wise prefix of its path, for two roots of <= 2 / <= 3 components and files of <= 3 / <= 4 components over a three-letter alphabet; '
        '(b) ide::module_name names <root>/<dir>/a/b.gleam as a/b for <= 2 / <= 3 directories and stems over [a-c_1], returns None for other extensions and does not panic on dots / backslashes; '
        '(c) Package::visible_modules = modules of the own package and of its direct dependencies for every dependency relation over three packages; '
        '(d) find_gleam_project_parent on 9 path shapes (module in src / test / a sub-directory / elsewhere, manifests, nested projects, files of a dependency under build/packages) for EVERY set of ancestor directories that hold a gleam.toml (Path::is_file answered from symbolic bits), compared with a two-stage reference of the layout rules',
        'std::path is modelled over component lists (strip_prefix, extension, set_extension, components, collect, to_str, starts_with); file names are valid UTF-8 without separators; '
        'the model is compared with the native ide::module_name on the sampled paths of every run',
        'reading gleam.toml (assemble_graph), walking directories (load_package_files) and the build/packages locality flag are file-system I/O and outside the claim; they are exercised only by the on-disk scenarios (real server: direct / transitive dependency, a dependency file opened first, a nested path dependency opened before its project, two projects with their own copy of a same-named dependency); a mismatch there is reported as a natively reproduced violation',
        'module_name skips the first component below the root whatever its name: that only src/ and test/ are loaded is a property of load_package_files (I/O), not claimed']
    chk.trusted += ['rustc MIR', 'mirsym interpreter + std::path / HashMap / IndexSet / la_arena models', 'z3']
    chk.level = 'model_checking'
    return chk.finish()


def replay(path):
    print(json.dumps(native_layout(lsp_replay.build_binary()), indent=1))
    return 0
