"""C05 - frame condition on InferCtx::resolver (kernel, under-constrained).

Inference resolves every name of a function body through `InferCtx::resolver`.  Several methods temporarily swap it for the resolver of
ANOTHER module (the module that declares a constructor's type, a called function, a type alias) to build a type, and must put the caller's
resolver back: whatever is looked up afterwards in the same block - in particular the qualifier of `m.name`, which fills the
module_resolution / field_resolution tables go-to-definition reads - is otherwise resolved with the import table of a different file.

The functions are FOUND in the MIR of the current tree (every `ty::infer::<impl ..>` method that calls `mem::replace::<Resolver>` or assigns the
`resolver` field), each is executed with every callee havoc'd (closures real), and on every returning path the resolver field must hold the
very value it held on entry.  A finding is replayed through goto_definition on a four-module workspace (two modules bound to one qualifier
in different files)."""
import re, json
import z3
from mirsym import models
from mirsym.values import Agg, IntV, RefV, LazyV, VecV, MapV, Opaque
from . import unifier
from .unifier import struct_fields, infer_ctx, body_ctx, mk_table


def swapping_methods():
    """names of the InferCtx methods whose MIR writes the resolver field"""
    W = unifier.W
    out = []
    for name, b in W.crates['ide'].items():
        if not re.search(r'^ty::infer::<impl at [^>]*>::\w+$', name):
            continue
        if not b.args or 'InferCtx' not in b.args[0][1]:
            continue
        txt = '\n'.join('\n'.join(st) + '\n' + str(tm) for st, tm in b.blocks.values())
        if re.search(r'mem::replace::<(def::resolver::)?Resolver>', txt) or re.search(r'\.\d+: (def::resolver::)?Resolver\) = ', txt):
            out.append(name)
    return sorted(out)


class FrameSpec:
    def __init__(self, fname):
        self.fname = fname

    def make_interp(self):
        W = unifier.W
        it = W.interp('ide', uc=True)
        short = self.fname.rsplit('::', 1)[1]
        # the method itself is the entry; its closures are real; a recursive call of the method is a callee like any other (havoc'd)
        it.allow = ['^' + re.escape(self.fname) + r'::\{closure#\d+\}$']
        rep = it.models['mem::replace']; spec = self

        def replace(it_, c, a):
            spec.swaps += 1
            return rep(it_, c, a)
        it.models['mem::replace'] = replace
        unifier.install(it)
        self.short = short
        return it

    def run_path(self, it):
        W = unifier.W
        b = W.crates['ide'][self.fname]
        self.swaps = 0
        cell = [mk_table([])]
        bctx, pi, ei = body_ctx()
        ctx = infer_ctx({'body_ctx': bctx, 'idx': IntV(100, 32, 0), 'table': RefV(cell, 0), 'resolver': Agg('struct', 'Resolver', None, [Opaque('scopes-of-the-function'), Opaque('module-scope-of-the-function')])}, opaque=LazyV)
        ri = [f for f, _ in struct_fields('InferCtx')].index('resolver')
        before = ctx.fields[ri]
        args = [RefV([ctx], 0)] + [LazyV('arg%d' % i) for i in range(1, len(b.args))]
        it.run_body(b, args)
        rec = {'cls': 'swapped-and-restored' if self.swaps else 'untouched', 'ok': True, 'sample': {'method': self.short, 'swaps': self.swaps}}
        if ctx.fields[ri] is not before:
            last = [t[0].split('::')[-1] for t in it.trace[-6:]]
            rec = {'cls': 'violation', 'ok': False, 'cex': {'method': self.short, 'last_calls': last},
                   'why': ['C05: a path of InferCtx::%s returns with self.resolver still set to the resolver of another module (swapped in, never put back; last calls: %s): '
                           'what follows in the block is resolved with that module\'s imports' % (self.short, ', '.join(last))]}
        return rec

    def on_panic(self, it, e):
        return {'cls': 'panic-under-havoc', 'ok': True}


def factory(fname):
    return FrameSpec(fname)


def native_probes(oracle):
    """go-to-definition on `m.g` after a construct that makes inference visit another module, in a workspace where that module binds the
    qualifier m to a different module.  -> [(description, ok, detail)]"""
    x = 'pub fn g() { "x" }\npub const k = 1\n'
    y = 'pub fn g() { "y" }\npub const k = 2\n'
    other = ('import x as m\npub type Colour { Red Green }\npub type Box(a) { Box(inner: a) }\npub type Pair { Pair(l: Int, r: Int) }\npub type Id = Int\n'
             'pub fn name(c: Colour) { m.g() }\npub fn idf(i: Id) -> Id { i }\npub const c = 3\n')
    heads = [
        ('a field-less constructor of a type of another module is used', 'let c = Red\n  '),
        ('a field-less constructor of another module is matched', 'let a = case Red { Red -> 1 Green -> 2 }\n  '),
        ('a generic constructor of another module is applied', 'let c = Box(1)\n  '),
        ('a record constructor of another module is matched', 'let a = case Pair(1, 2) { Pair(l, r) -> l }\n  '),
        ('a function of another module is called unqualified', 'let c = name(Green)\n  '),
        ('a function of another module is called qualified', 'let c = other.name(other.Green)\n  '),
        ('a function of another module whose signature names an alias is called', 'let c = idf(1)\n  '),
        ('a field of a record of another module is read', 'let p = Pair(1, 2)\n  let c = p.l\n  '),
        ('a constant of another module is read', 'let c = other.c\n  '),
    ]
    out = []
    for desc, head in heads:
        app = 'import y as m\nimport other.{Red, Green, Box, Pair, name, idf}\nimport other\nfn run() {\n  %sm.g()\n}\n' % head
        files = [{'path': '/app/src/main.gleam', 'text': app, 'root': 0}, {'path': '/app/src/x.gleam', 'text': x, 'root': 0},
                 {'path': '/app/src/y.gleam', 'text': y, 'root': 0}, {'path': '/app/src/other.gleam', 'text': other, 'root': 0}]
        at = app.index('m.g()')
        r = oracle.ask('goto', json.dumps({'files': files, 'roots': [{'path': '/app', 'local': True, 'deps': []}], 'file': 0, 'offsets': [at, at + 2]}))
        g = r.get('goto') if isinstance(r, dict) else None
        ok = bool(g) and bool(g[0]) and g[0][0][0] == 2 and bool(g[1]) and g[1][0][0] == 2 and g[1][0][1] == y.index('g()')
        out.append(('`m.g()` after %s (m is y here, x in that module)' % desc, ok, 'program %r: go-to-definition on qualifier / member -> %s (y.gleam is file 2, x.gleam file 1)' % (app, g)))
    return out
