"""C16 — edits racing with requests never deadlock (necessary-condition obligations only: the two-lock discipline).

The handler functions of glas::server::Server are executed under-constrained (every callee outside the handlers returns an
unconstrained value); RwLock guards are tracked from write()/read() to the MIR drop that releases them.  Obligations on
every path:  L1 no guard of the document store is live when AnalysisHost::apply_change / apply_vfs_change is entered;
L2 the store is never locked while a guard of it is live; L3 spawn_with_snapshot moves the snapshot straight into the
blocking task; L4 every applied change is followed by a diagnostics task; no guard outlives its handler;
L5 a request handler whose query was cancelled answers with an error, never with a result;
L6 after a change, diagnostics are re-spawned for every open document (a change cancels every running diagnostics task).
Interleavings are NOT explored (no tool of this family here models tokio + salsa schedules)."""
import os, json
from mirsym import explore, lsp_replay, native
from . import vfsk, ucserver
from .runner import Check

HANDLERS = ['on_did_change', 'on_did_open', 'set_vfs_file_content', 'apply_vfs_change', 'spawn_with_snapshot', 'spawn_update_diagnostics', 'on_did_close', 'on_did_change_watched_files']


def burst_replay(binary, rounds=40):
    """bursts of didChange followed by a hover written in one go; a hover that is never answered = the main loop is stuck"""
    import time
    s = lsp_replay.Session(binary, timeout=8.0)
    try:
        uri = s.uri()
        s.notify('textDocument/didOpen', {'textDocument': {'uri': uri, 'languageId': 'gleam', 'version': 1, 'text': 'pub fn main() {\n  let x = 0\n  x\n}\n'}})
        for r in range(rounds):
            for k in range(6):
                s.notify('textDocument/didChange', {'textDocument': {'uri': uri, 'version': 2 + r * 6 + k},
                                                    'contentChanges': [{'text': 'pub fn main() {\n  let x = %d\n  x\n}\n' % (r * 6 + k)}]})
            h = s.request('textDocument/hover', {'textDocument': {'uri': uri}, 'position': {'line': 0, 'character': 8}})
            if 'timeout' in h or 'dead' in h:
                return 'round %d: hover %s' % (r, 'never answered (main loop blocked)' if 'timeout' in h else 'server died')
            if r % 4 == 0:
                # a request and the edit that follows it arriving in one read: the edit is handled before the main loop yields to its runtime
                ver = 100000 + r
                h = s.request_with_trailing('textDocument/hover', {'textDocument': {'uri': uri}, 'position': {'line': 0, 'character': 8}},
                                            [('textDocument/didChange', {'textDocument': {'uri': uri, 'version': ver}, 'contentChanges': [{'text': 'pub fn main() {\n  let x = %d\n  x\n}\n' % ver}]})])
                if 'timeout' in h or 'dead' in h:
                    return 'round %d: a hover delivered in one write with the didChange that follows it is %s' % (r, 'never answered (main loop blocked)' if 'timeout' in h else 'followed by the death of the server')
        return None
    finally:
        s.close()


def main(tier, seed):
    chk = Check('C16', tier, seed, level='other')
    jobs = int(os.environ.get('VERIF_JOBS', '16'))
    vfsk.load('dev', log=chk.log)
    found = []
    try:
        for fn in HANDLERS:
            for nch in ((1, 2) if fn == 'on_did_change' else (0,)):
                if tier == 'thorough' and fn == 'on_did_change' and nch == 2:
                    nch = 3
                res, complete = explore.explore(ucserver.lock_factory, (fn, nch), jobs=jobs)
                chk.add_run('handler %s%s (under-constrained)' % (fn, ' with %d content changes' % nch if nch else ''), res, complete,
                            {'handler': fn, 'content_changes': nch, 'callees': 'havoc outside the handler functions'}, nontrivial_classes=lambda c: c.startswith('ok:') and not c.startswith('ok:0'))
                for v in res.violations:
                    found.append((fn, v))
        for fn in ucserver.request_handlers():
            res, complete = explore.explore(ucserver.handler_factory, (fn,), jobs=jobs)
            chk.add_run('request handler handler::%s (under-constrained)' % fn, res, complete, {'handler': 'handler::' + fn}, nontrivial_classes=lambda c: c.startswith('cancelled'))
            for v in res.violations:
                for w in v['why']:
                    chk.violation(('lock-discipline' if ': L2' in w else 'cancellation') + ':handler::' + fn, 'obligation', w, v['cex'], confirmed=True)
        # L6: convergence of the published diagnostics
        cfound = []
        for fn in ('on_did_change', 'on_did_open', 'on_did_change_watched_files'):
            res, complete = explore.explore(ucserver.converge_factory, (fn,), jobs=jobs)
            chk.add_run('handler %s: diagnostics are re-spawned for every open document (two open documents, under-constrained)' % fn, res, complete, {'handler': fn, 'open_documents': 2},
                        nontrivial_classes=lambda c: c.startswith('respawned'))
            cfound += [(fn, v) for v in res.violations]
        wfound = [(fn, v) for fn, v in cfound if fn == 'on_did_change_watched_files']
        cfound = [(fn, v) for fn, v in cfound if fn != 'on_did_change_watched_files']
        if wfound:
            binary = lsp_replay.build_binary()
            obs = None
            for attempt in range(3):
                obs = lsp_replay.watched_files_scenario(binary)
                if obs['last_a'] is None:
                    break
            fn, v = wfound[0]
            desc = '%s; real binary: document A (4000 functions + one syntax error) opened and, in the same write, workspace/didChangeWatchedFiles for another file on disk -> the last diagnostics published for A: %s' % (v['why'][0][:400], obs['last_a'])
            if obs['last_a'] is None:
                chk.violation('convergence:diagnostics:watched-files', 'obligation', desc, dict(v['cex'], scenario='didOpen A + didChangeWatchedFiles(other file) in one write'), confirmed=True)
            else:
                chk.inconclusive.append('obligation L6 violated but the missing diagnostics did not reproduce natively in 3 attempts (timing dependent): ' + desc[:400])
        ofound = [(fn, v) for fn, v in cfound if fn == 'on_did_open']
        cfound = [(fn, v) for fn, v in cfound if fn != 'on_did_open']
        if ofound:
            binary = lsp_replay.build_binary()
            obs = None
            for attempt in range(3):
                obs = lsp_replay.open_two_scenario(binary)
                if not obs['last_a']:
                    break
            fn, v = ofound[0]
            desc = '%s; real binary: didOpen of document A (4000 functions + one syntax error) and didOpen of document B in one write -> the last diagnostics published for A: %s' % (v['why'][0][:400], obs['last_a'])
            if not obs['last_a']:
                chk.violation('convergence:diagnostics:did-open', 'obligation', desc, dict(v['cex'], scenario='didOpen A + didOpen B in one write'), confirmed=True)
            else:
                chk.inconclusive.append('obligation L6 violated but the missing diagnostics did not reproduce natively in 3 attempts (timing dependent): ' + desc[:400])
        if cfound:
            binary = lsp_replay.build_binary()
            obs = None
            for attempt in range(3):
                obs = lsp_replay.two_docs_scenario(binary)
                if obs['before'] and not obs['last_a']:
                    break
            stale = bool(obs['before']) and not obs['last_a']
            fn, v = cfound[0]
            desc = '%s; real binary: document A (1500 functions + one syntax error, %s diagnostics published) edited, document B edited 20 ms later -> the last diagnostics published for A: %s' % (v['why'][0][:400], obs['before'], obs['last_a'])
            if stale:
                chk.violation('convergence:diagnostics', 'obligation', desc, dict(v['cex'], scenario='edit A, 20 ms later edit B'), confirmed=True)
            else:
                chk.inconclusive.append('obligation L6 violated but the stale diagnostics did not reproduce natively in 3 attempts (timing dependent): ' + desc[:400])
        if found:
            binary = lsp_replay.build_binary()
            problem = burst_replay(binary, rounds=60 if tier == 'quick' else 200)
            seen = set()
            for fn, v in found:
                key = (fn, v['why'][0][:80])
                if key in seen:
                    continue
                seen.add(key)
                desc = 'handler %s: %s; lock events %s; burst replay against the real binary: %s' % (fn, v['why'][0][:300], v['cex']['lock_events'][:6], problem or 'no stall observed (timing dependent)')
                if problem:
                    chk.violation('lock-discipline:' + fn, 'obligation', desc, v['cex'], confirmed=True)
                else:
                    chk.inconclusive.append('obligation violated but the stall did not reproduce natively (timing dependent): ' + desc[:400])
        # native convergence layer: z3-enumerated message scenarios against the real binary (timing is real, not modelled)
        import threading, json
        from concurrent.futures import ThreadPoolExecutor
        from . import convk
        binary = lsp_replay.build_binary()
        orc = native.Oracle(native.build('oracle-ide')); lock = threading.Lock(); cache = {}

        def diag(txt):
            with lock:
                if txt not in cache:
                    r = orc.ask('diag', json.dumps({'text': txt}))
                    cache[txt] = len(r) if isinstance(r, list) else None
                return cache[txt]
        plan = [(2, None), (3, 96)] if tier == 'quick' else [(2, None), (3, None), (4, None)]
        nsc = nbad = 0
        try:
            for n, limit in plan:
                scs, nq = convk.all_scenarios(n, limit=limit, seed=seed + 1 if limit else 0)
                with ThreadPoolExecutor(max_workers=min(jobs, 16)) as ex:
                    for sc, prob in zip(scs, ex.map(lambda x: convk.run_scenario(binary, diag, x), scs)):
                        nsc += 1
                        if prob:
                            nbad += 1
                            if nbad <= 3:
                                chk.violation('convergence:scenario', 'enumerated', 'real binary: ' + prob[:700], {'kind': 'scenario', 'steps': [list(x) for x in sc]}, confirmed=True)
                        else:
                            chk.validated += 1
                chk.log('convergence: %d scenarios of %d steps against the real binary (%s), %d with a wrong final state so far' % (len(scs), n, 'all well-formed ones' if limit is None else 'z3 models, seeded', nbad))
        finally:
            orc.close()
        chk.extra['convergence'] = {'scenarios': nsc, 'with_wrong_final_state': nbad}
    finally:
        vfsk.W.cleanup()
    chk.assumptions += ['native convergence layer (executed with real timing, not a solver verdict): every well-formed scenario of 2 (quick; thorough: 2-4) steps and 96 z3-chosen scenarios of 3 steps over {edit A into a text with / without a syntax error, edit B, close A, re-open A} x {no gap, 25 ms gap} with two open documents against the real `glas --stdio` binary; '
                        'after a quiet period the last publishDiagnostics of every open document must carry as many diagnostics as a fresh analysis of its final text, and a hover must be answered; a mismatch is re-judged after a much longer wait, so a slow machine is not reported',
                        'obligation check: necessary conditions of the property (the documented two-lock discipline), not the schedule-quantified statement',
                        'under-constrained execution: every callee outside the eight handler functions returns an unconstrained value; panics that exist only because such a value was None/Err are ignored here',
                        'loops over collections returned by havoc\'d callees are executed zero times; on_did_change gets an explicit vector of 1-2 (thorough: 3) content changes']
    chk.trusted += ['rustc MIR incl. its elaborated drops (guard lifetimes)', 'mirsym interpreter (under-constrained mode)', 'z3']
    expl = ('Under-constrained symbolic execution of the real MIR of %d server handlers; %d paths; on every path the RwLock<Vfs> guards are tracked from acquisition to the MIR drop and the obligations '
            'L1-L4 are asserted. Necessary conditions only: interleavings and convergence of published diagnostics are not explored.' % (len(HANDLERS), sum(r['paths'] for r in chk.runs)))
    return chk.finish({'obligations': 4 * len(HANDLERS), 'discharged': (4 * len(HANDLERS)) if not found else 0, 'native_oracle': chk.extra.get('convergence', {})}, explanation=expl)


def replay(path):
    import json
    binary = lsp_replay.build_binary()
    d = json.load(open(path))
    if d.get('cex', {}).get('kind') == 'scenario':
        from . import convk
        orc = native.Oracle(native.build('oracle-ide'))
        def diag(txt):
            r = orc.ask('diag', json.dumps({'text': txt}))
            return len(r) if isinstance(r, list) else None
        probs = [convk.run_scenario(binary, diag, [tuple(x) for x in d['cex']['steps']]) for _ in range(5)]
        orc.close()
        print(json.dumps({'runs': 5, 'problems': [p for p in probs if p][:3]}, indent=1))
        return 1 if any(probs) else 0
    print(burst_replay(binary, 100))
    return 0
