"""C15 part b: Server::on_did_change (real MIR) over the real Vfs with several content changes, arbitrary positions."""
import json
from mirsym import explore, lsp_replay
from . import ucserver, vfsrun, vfsk

BOUNDS = {'quick': [(2, 1, 2, False), (1, 1, 2, True), (1, 1, 2, 1)], 'thorough': [(3, 1, 2, False), (2, 1, 3, False), (2, 1, 2, True), (2, 1, 2, 1), (1, 1, 3, 2)]}


def native_check(binary, w):
    """run the witness against the real binary; returns (problem or None, observation)"""
    doc = bytes.fromhex(w['doc']).decode('utf-8')
    changes = [{'range': c['range'], 'text': bytes.fromhex(c['text']).decode('utf-8')} for c in w['changes']]
    obs = lsp_replay.did_change_scenario(binary, doc, changes)
    # python reference: apply one by one; a rejected change forgets the document
    exp = doc.replace('\r', ''); forgotten = False
    for c in changes:
        if c['range'] is None:
            exp = c['text'].replace('\r', '')
            continue
        nxt = vfsrun.py_edit(exp, *c['range'], c['text'])
        if nxt is None:
            forgotten = True; break
        exp = nxt
    if not obs['alive']:
        return 'the server process died / stopped answering (hover: %s, exit status %s)' % (obs['hover'], obs.get('exit_status')), obs
    if not forgotten and obs['text'] is not None and obs['text'] != exp:
        return 'server text %r, editor text (CRs removed) %r' % (obs['text'], exp), obs
    return None, obs


def run(chk, tier, jobs):
    binary = None
    for (n, k, changes, full_first) in BOUNDS[tier]:
        res, complete = explore.explore(ucserver.didchange_factory, (n, k, changes, full_first), jobs=jobs)
        name = 'on_did_change loop: doc=%d bytes, %d changes (%s), %d-byte texts' % (n, changes, ('first one full-text' if full_first is True else 'change #%d full-text' % full_first) if full_first is not False else 'all ranged', k)
        chk.add_run(name, res, complete, {'doc_bytes': n, 'changes_per_notification': changes, 'insert_bytes': k, 'positions': 'arbitrary u32', 'mode': 'under-constrained server, real Vfs/convert'},
                    nontrivial_classes=lambda c: c in ('forgotten', 'applied'))
        seen = set()
        for v in res.violations:
            key = v['why'][0][:60]
            if key in seen:
                continue
            seen.add(key)
            if binary is None:
                binary = lsp_replay.build_binary()
            problem, obs = native_check(binary, v['cex'])
            site = 'didchange:' + ('panic' if 'panics' in v['why'][0] else 'text' if 'C13' in v['why'][0] else 'state')
            chk.violation(site, 'bounded', '%s: %s; real binary: %s' % (name, v['why'][0][:300], problem or ('no problem observed: %s' % obs)), v['cex'], confirmed=problem is not None)
        # translator validation of a few explored paths against the real binary
        samples = [s for cls, ss in res.samples.items() for s in ss][:3]
        if samples:
            if binary is None:
                binary = lsp_replay.build_binary()
            okc = 0
            for s in samples:
                problem, obs = native_check(binary, s)
                if problem is None:
                    okc += 1
                else:
                    chk.inconclusive.append('translator validation (real binary) FAILED on %s: %s' % (s, problem))
            chk.validated += okc
            chk.log('%s: %d/%d sampled paths replayed against the real glas binary over stdio' % (name, okc, len(samples)))
