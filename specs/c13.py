"""C13 — the server's copy of a document tracks the editor's through any edits (bounded, solver-decided)."""
import os, json
from mirsym import explore
from . import vfsrun, vfsk, vfsspecs
from .runner import Check

# (doc bytes, insert bytes, chained edits)
BOUNDS = {'quick': [(4, 2, 1), (5, 1, 1), (3, 1, 2)], 'thorough': [(6, 2, 1), (5, 3, 1), (7, 1, 1), (4, 2, 2), (3, 1, 3)]}


def crlf_factory(n):
    return CrlfSpec(n)


class CrlfSpec:
    """didOpen with CRLF line breaks: normalize(doc) must be doc with CRs removed, and its line map the line map of that text"""
    def __init__(self, n):
        self.n = n

    def make_interp(self):
        import z3
        it = vfsk.interp()
        self.bs = [z3.BitVec('b%d' % i, 8) for i in range(self.n)]
        for c in vfsk.doc_constraints(self.bs, allow_cr=True, crlf_only=False):
            it.solver.add(c)
        return it

    def run_path(self, it):
        import z3
        from mirsym.values import IntV
        text, lm = vfsk.normalize(it, [IntV(b, 8, 0) for b in self.bs])
        kept = []
        bad = []
        for b in self.bs:
            r1, _ = it.check(b == 0x0D); r2, _ = it.check(b != 0x0D)
            if r1 == z3.sat and r2 == z3.sat:
                bad.append('engine: CR-ness undecided on the path')
            if r1 != z3.sat:
                kept.append(b)
        if len(kept) != len(text.b) or any(not (isinstance(a.v, z3.ExprRef) and a.v.eq(b)) for a, b in zip(text.b, kept)):
            bad.append('C13: normalize(doc) is not doc with the carriage returns removed')
        # the line map must be the one of the stripped text
        text2, lm2 = vfsk.normalize(it, list(text.b))
        if repr(lm.fields[0]) != repr(lm2.fields[0]) or repr(lm.fields[2]) != repr(lm2.fields[2]) or \
                repr(sorted(repr(kv) for kv in lm.fields[1].kv)) != repr(sorted(repr(kv) for kv in lm2.fields[1].kv)):
            bad.append('C13: the line map of a CRLF document is not the line map of its normalised text')
        m = it.get_model()
        doc = vfsk.eval_bytes(m, self.bs)
        rec = {'cls': 'with-cr' if len(kept) != self.n else 'no-cr', 'ok': True, 'sample': {'doc': doc.hex(), 'normalised_len': len(kept)}}
        if bad:
            rec.update({'cls': 'violation', 'ok': False, 'why': bad, 'cex': {'doc': doc.hex(), 'edits': []}})
        return rec


def main(tier, seed):
    chk = Check('C13', tier, seed)
    jobs = int(os.environ.get('VERIF_JOBS', '16'))
    try:
        oracle = vfsrun.setup(chk)
    except Exception as e:
        # the overlay oracle wraps convert::from_range / Vfs::change_file_content / LineMap through their current signatures; a refactor of that
        # interface leaves the kernels without a driver (inconclusive, never a pass) - the interface-independent layers below still run
        oracle = None
        chk.inconclusive.append('the overlay oracle of the edit kernels does not build against the current tree (interface of vfs.rs / convert.rs changed?): %s' % str(e)[-300:].replace('\n', ' '))
    try:
        for n in (range(0, 6 if tier == 'quick' else 8) if oracle else ()):
            res, complete = explore.explore(crlf_factory, (n,), jobs=jobs)
            chk.add_run('didOpen normalisation doc=%d bytes (CR/LF/CRLF)' % n, res, complete, {'doc_bytes': n}, nontrivial_classes=lambda c: c == 'with-cr')
            vfsrun.confirm_edit(chk, res, oracle, 'didOpen of a %d-byte document' % n, ['C13'])
        done = set()
        for (n, k, edits) in (BOUNDS[tier] if oracle else ()):
            for nn in range(0, n + 1):
                for kk in range(0, k + 1):
                    if (nn, kk) != (n, k) and edits > 1:
                        continue
                    if (nn, kk, edits) in done:
                        continue
                    done.add((nn, kk, edits))
                    res, complete = explore.explore(vfsrun.edit_factory, (nn, kk, True, edits), jobs=jobs)
                    chk.add_run('valid edits doc=%d ins=%d edits=%d' % (nn, kk, edits), res, complete,
                                {'doc_bytes': nn, 'insert_bytes': kk, 'chained_edits': edits, 'positions': 'symbolic, valid LSP positions, start<=end'},
                                nontrivial_classes=lambda c: 'applied' in c)
                    vfsrun.confirm_edit(chk, res, oracle, 'doc=%d ins=%d edits=%d' % (nn, kk, edits), ['C13'])
                    vfsrun.validate_edit(chk, res, oracle, 'doc=%d ins=%d x%d' % (nn, kk, edits))
    finally:
        if oracle:
            oracle.close()
        vfsk.W.cleanup()
    # (e) native edit layer: enumerated edit scenarios against the real binary, independent of every internal interface
    from . import editk
    editk.part(chk, tier, seed, jobs)
    # (c) the batch hand-over to the analysis: ide::Change::apply
    from . import changek
    changek.part(chk, tier, jobs)
    # (d) native scenario (real binary): the documents exist on disk with OTHER contents than the editor sends
    from mirsym import lsp_replay
    probs = lsp_replay.disk_vs_editor_scenario(lsp_replay.build_binary())
    for p_ in probs[:3]:
        chk.violation('didOpen:disk-vs-editor', 'fixture', 'real binary: ' + p_[:700], {'kind': 'disk-vs-editor'}, confirmed=True)
    if not probs:
        chk.validated += 4
    chk.assumptions += vfsrun.ASSUMPTIONS + ['part e (native edit layer, real binary, not a solver verdict): every one-change scenario on documents of <= 3 (thorough 4) symbols over {a, b, LF, U+00E9, U+1F600, CRLF}, two-change scenarios (one notification / two notifications) with every first change and a seeded sample of second changes, and seeded three-change scenarios on documents of 3-6 symbols; a reference LSP client applies the edits, the text the server analyses (glas/syntaxTree) must be the client\'s with CRs removed',
                                            'part d (native scenario, real binary, not a solver verdict): files on disk differ from the text of didOpen - first document of a package that is not loaded yet, second document, an edit, a document of a nested package; after every step the analysed text of every open document is the editor\'s',
                                            'part c: ide::Change::apply runs on its real MIR with the salsa database havoc\'d; k <= 3 (thorough 4) queued contents over 2 symbolic file ids; the obligation is that the last set_file_content for every file carries the last queued content; replayed against the real server with a multi-change notification',
                                            'Server::on_did_change\'s plumbing around the per-change calls (from_range + change_file_content) is covered structurally by C15, not here',
                                            'CR is assumed to occur only immediately before LF (the property: line breaks are LF or CRLF)']
    chk.trusted += vfsrun.TRUSTED
    return chk.finish()


def replay(path):
    d = json.load(open(path))
    if d.get('cex', {}).get('kind') == 'disk-vs-editor':
        from mirsym import lsp_replay
        probs = lsp_replay.disk_vs_editor_scenario(lsp_replay.build_binary())
        print(json.dumps(probs, indent=1))
        return 1 if probs else 0
    if d.get('cex', {}).get('kind') == 'edit-scenario':
        from mirsym import lsp_replay
        from . import editk
        bad = editk.replay_one(lsp_replay.build_binary(), d['cex'])
        print(json.dumps(bad, indent=1, ensure_ascii=False))
        return 1 if bad else 0
    if d.get('site') == 'change-apply':
        from mirsym import lsp_replay
        c = d['cex']
        print(json.dumps(lsp_replay.did_change_scenario(lsp_replay.build_binary(), c['doc'], c['changes']), indent=1))
        return 0
    chk = Check('C13-replay', 'quick', 0)
    oracle = vfsrun.setup(chk)
    print(json.dumps(vfsrun.native_edit(oracle, d['cex'])[0], indent=1))
    return 0
