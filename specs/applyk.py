"""C11 kernel: ide::Change::apply writes EVERY component a Change carries into the database, whatever was applied before.

A long-lived analysis equals a fresh one iff, after every Change, the database inputs are those a fresh database gets from the final
workspace (salsa's memoisation of derived queries over those inputs is third-party and trusted).  Change::apply only writes; so it is enough
that each write a Change asks for happens - package graph if present; for every source root of a `roots` list, in list order, the root of each
of its files, its module map and the root itself under the index it has in the list; every queued file content, last one last - and that
nothing in the function makes a write depend on what an earlier Change did.

Real MIR of base::Change::apply, under-constrained database (every `set_*` call is recorded, every other database call is havoc'd: a write
that is guarded by such a call shows up as a path on which the write is missing).  Symbolic: the file ids; enumerated: graph present or not,
roots absent / 0 / 1 / 2 roots with 0-2 files each, 0-2 queued contents."""
import re
import z3
from mirsym.world import World
from mirsym.values import *
from mirsym import models

W = None


class ApplySpec:
    def __init__(self, graph, shape, k):
        """graph: bool; shape: None or a tuple with the number of files per root; k: queued contents"""
        self.graph = graph; self.shape = shape; self.k = k

    def make_interp(self):
        it = W.interp('ide', uc=True)
        it.allow = [r'^base::<impl at [^>]*>::apply$', r'^base::<impl at [^>]*>::apply::\{closure#\d+\}$', r'^base::<impl at [^>]*>::files$', r'^base::<impl at [^>]*>::files::\{closure#\d+\}$',
                    r'^base::<impl at [^>]*>::iter$', r'^base::<impl at [^>]*>::iter::\{closure#\d+\}$', r'^base::<impl at [^>]*>::as_path$', r'^base::SourceRootId$', r'^base::FileId$']
        n = sum(self.shape or ())
        self.rf = [z3.BitVec('rf%d' % i, 32) for i in range(n)]
        self.cf = [z3.BitVec('cf%d' % i, 32) for i in range(self.k)]
        for f in self.rf + self.cf:
            it.solver.add(z3.ULE(f, 2))
        # the files of ONE root are distinct (FileSet is a map); a file may still be listed in two roots
        pos = 0
        for cnt in (self.shape or ()):
            for i in range(pos, pos + cnt):
                for j in range(i + 1, pos + cnt):
                    it.solver.add(self.rf[i] != self.rf[j])
            pos += cnt
        return it

    def run_path(self, it):
        body = next(b for n, b in W.crates['ide'].items() if re.match(r'^base::<impl at [^>]*>::apply$', n) and 'Change' in b.header)
        fid = lambda f: Agg('struct', 'FileId', None, [IntV(f, 32, 0)])
        entries = [tup(fid(f), IntV(100 + i, 32, 0)) for i, f in enumerate(self.cf)]
        roots = none()
        if self.shape is not None:
            rs = []; pos = 0
            for ri, cnt in enumerate(self.shape):
                files = MapV(); paths = MapV()
                for i in range(pos, pos + cnt):
                    vp = Agg('enum', 'VfsPath', 'Path', [Opaque('path%d' % i)])
                    paths.kv.append((fid(self.rf[i]), vp))
                    files.kv.append((vp, fid(self.rf[i])))
                pos += cnt
                rs.append(Agg('struct', 'SourceRoot', None, [Agg('struct', 'FileSet', None, [files, paths]), Opaque('root_path%d' % ri)]))
            roots = some(VecV(rs))
        graph = some(Opaque('graph')) if self.graph else none()
        change = Agg('struct', 'Change', None, [graph, roots, VecV(entries), BoolV(False), BoolV(False)])
        it.run_body(body, [change, LazyV('db')])
        tr = it.trace
        name = lambda t: t[0].rsplit('::', 1)[-1]
        why = []
        ngraph = [t for t in tr if name(t) == 'set_package_graph_with_durability']
        if len(ngraph) != (1 if self.graph else 0):
            why.append('C11: a Change %s a package graph, Change::apply writes the package graph %d times' % ('with' if self.graph else 'without', len(ngraph)))
        # source roots
        fsr = [t for t in tr if name(t) == 'set_file_source_root_with_durability']
        mm = [t for t in tr if name(t) == 'set_module_map_with_durability']
        sr = [t for t in tr if name(t) == 'set_source_root_with_durability']

        def sid_of(v):
            v = models.deref(v)
            x = v.fields[0] if isinstance(v, Agg) else v
            return x.z() if isinstance(x, IntV) else None

        def fid_of(v):
            v = models.deref(v)
            x = v.fields[0] if isinstance(v, Agg) else v
            return x.z() if isinstance(x, IntV) else None
        nroots = len(self.shape or ())
        for what, calls in (('module map', mm), ('source root', sr)):
            got = [sid_of(t[1][1]) for t in calls]
            if any(g is None for g in got):
                why.append('engine: %s written under an id the kernel cannot follow' % what); continue
            want = list(range(nroots))
            rr, m = it.check(z3.Or([g != w for g, w in zip(got, want)])) if len(got) == len(want) and got else (z3.unsat, None)
            if len(got) != len(want) or rr == z3.sat:
                why.append('C11: a Change with %d source roots: Change::apply writes the %s of the roots %s (expected each of 0..%d once, in order)'
                           % (nroots, what, [z3.simplify(g) if not isinstance(g, int) else g for g in got], nroots))
        # every (file, root index) pair of the change must be written, last root wins; nothing else
        pairs = []; pos = 0
        for ri, cnt in enumerate(self.shape or ()):
            for i in range(pos, pos + cnt):
                pairs.append((self.rf[i], ri))
            pos += cnt
        gotp = []
        for t in fsr:
            f = fid_of(t[1][1]); s = sid_of(t[1][2])
            if f is None or s is None:
                why.append('engine: file_source_root written with values the kernel cannot follow'); break
            gotp.append((f, s))
        else:
            v = z3.BitVec('v', 32)
            bad = []
            for i, (f, ri) in enumerate(pairs):
                last_i = z3.And([f == v] + [pairs[j][0] != v for j in range(i + 1, len(pairs))])
                okj = [z3.And([g == v, s == ri] + [gotp[j2][0] != v for j2 in range(j + 1, len(gotp))]) for j, (g, s) in enumerate(gotp)]
                bad.append(z3.And(last_i, z3.Not(z3.Or(okj)) if okj else z3.BoolVal(True)))
            for j, (g, s) in enumerate(gotp):
                bad.append(z3.And([g != f for f, _ in pairs]) if pairs else z3.BoolVal(True))
            if bad:
                rr, m = it.check(z3.Or(bad))
                if rr == z3.sat:
                    ev = lambda t_: m.eval(t_, model_completion=True).as_long() if not isinstance(t_, int) else t_
                    why.append('C11: source roots with the files %s: after Change::apply the root recorded for file %d is not the one the change assigns (writes: %s)'
                               % ([(ev(f), ri) for f, ri in pairs], ev(v), [(ev(g), ev(s)) for g, s in gotp]))
        # queued contents
        calls = [t for t in tr if name(t) == 'set_file_content_with_durability']
        got = []
        for t in calls:
            f = fid_of(t[1][1]); c = models.deref(t[1][2])
            if f is None or not isinstance(c, IntV):
                why.append('engine: set_file_content called with values the kernel cannot follow'); break
            got.append((f, c.z()))
        else:
            from .changek import last_per_file_violation
            v2, cond = last_per_file_violation(it, self.cf, got)
            rr, m = it.check(cond)
            if rr == z3.sat:
                ev = lambda t_: m.eval(t_, model_completion=True).as_long()
                why.append('C11: after Change::apply the database does not hold the last queued content of file %d: queued %s, written %s'
                           % (ev(v2), [(ev(f), i) for i, f in enumerate(self.cf)], [(ev(g), ev(c) - 100) for g, c in got]))
        cls = 'writes:g%d/r%d/f%d/c%d' % (len(ngraph), len(sr), len(fsr), len(calls))
        if why:
            real = [w for w in why if not w.startswith('engine')]
            if not real:
                raise Unsupported(why[0])
            return {'cls': 'violation', 'ok': False, 'why': real, 'cex': {'graph': self.graph, 'shape': self.shape, 'k': self.k}}
        return {'cls': cls, 'ok': True, 'sample': {'graph': self.graph, 'roots': self.shape, 'contents': self.k, 'writes': cls}}

    def on_panic(self, it, e):
        return {'cls': 'panic-under-havoc', 'ok': True}


def factory(graph, shape, k):
    return ApplySpec(graph, shape, k)


def shapes(tier):
    base = [None, (), (0,), (1,), (2,), (1, 1), (2, 1), (0, 2)]
    if tier != 'quick':
        base += [(2, 2), (1, 1, 1), (2, 0, 1)]
    return base


def part(chk, tier, jobs):
    """returns the list of kernel findings (dicts with 'why')"""
    global W
    from mirsym import explore
    W = World(['ide'], 'dev', log=chk.log)
    found = []
    try:
        for shape in shapes(tier):
            for graph in (False, True):
                for k in ((0, 2) if tier == 'quick' else (0, 1, 2, 3)):
                    if shape is None and not graph and k == 0:
                        continue
                    res, complete = explore.explore(factory, (graph, shape, k), jobs=1)
                    chk.add_run('Change::apply: graph %s, roots %s, %d queued contents (symbolic file ids, under-constrained database)'
                                % ('present' if graph else 'absent', 'absent' if shape is None else list(shape), k), res, complete,
                                {'graph': graph, 'files_per_root': shape, 'queued_contents': k, 'file_ids': 3}, nontrivial_classes=lambda c: c.startswith('writes'))
                    found += res.violations
    finally:
        W.cleanup()
    return found
