"""C20 part (iii): ide::diagnostics::diagnostics hands the parser's error ranges through unchanged (kernel).
The database is under-constrained except that `parse(file).errors()` is a vector of syntax errors with symbolic ranges."""
import re, json
import z3
from mirsym.world import World
from mirsym.values import *
from mirsym import models

W = None
N = 6     # text length the symbolic ranges live in


class DiagSpec:
    def __init__(self, nerr):
        self.nerr = nerr

    def make_interp(self):
        it = W.interp('ide', uc=True)
        it.allow = [r'^ide::diagnostics::diagnostics$', r'^ide::diagnostics::diagnostics::\{closure#\d+\}$', r'^diagnostic::<impl at [^>]*>::(from|new)']
        self.rs = []
        for i in range(self.nerr):
            s = z3.BitVec('s%d' % i, 32); e = z3.BitVec('e%d' % i, 32)
            it.solver.add(z3.ULE(s, e), z3.ULE(e, N))
            self.rs.append((s, e))
        errs = lambda: VecV([Agg('struct', 'Error', None, [models.mk_range(IntV(s, 32, 0), IntV(e, 32, 0)), Agg('enum', 'ErrorKind', 'ExpectedStatement', [])]) for s, e in self.rs])
        it.models['Parse::errors'] = lambda it_, c, a: SliceV(errs().items)
        it.models['<Vec as Extend>::extend'] = lambda it_, c, a: (models.deref(a[0]).items.extend(list(models._drain_all(it_, a[1]))), UNIT)[1]
        it.models['Vec::extend'] = it.models['<Vec as Extend>::extend']
        return it

    def run_path(self, it):
        b = W.crates['ide']['ide::diagnostics::diagnostics']
        r = it.run_body(b, [LazyV('db'), Agg('struct', 'FileId', None, [IntV(0, 32, 0)])])
        bad = []
        out = [x for x in r.items if isinstance(x, Agg)]
        syn_out = out[:self.nerr]
        if len(out) < self.nerr:
            bad.append('C20: %d syntax errors produce %d diagnostics' % (self.nerr, len(out)))
        conds = []
        for (s, e), d in zip(self.rs, syn_out):
            rng = d.fields[0]
            conds += [models.tsz(rng.fields[0]).z() != s, models.tsz(rng.fields[1]).z() != e]
        if conds:
            rr, m = it.check(z3.Or(conds))
            if rr == z3.sat:
                w = [(m.eval(s, model_completion=True).as_long(), m.eval(e, model_completion=True).as_long()) for s, e in self.rs]
                bad.append('C20: a syntax diagnostic does not carry the range of its parser error (error ranges %s in a %d-byte text)' % (w, N))
        rec = {'cls': 'ok', 'ok': True, 'sample': {'syntax_errors': self.nerr, 'diagnostics': len(out)}}
        if bad:
            rec.update({'cls': 'violation', 'ok': False, 'why': bad, 'cex': {'nerr': self.nerr}})
        return rec

    def on_panic(self, it, e):
        return {'cls': 'panic-under-havoc', 'ok': True}


def factory(nerr):
    return DiagSpec(nerr)


NATIVE_TEXTS = ['fn main() {\n  1\n// café', 'fn main() {', 'const a = é', 'fn f() { let x = }\n世', '\U0001F4A3 fn', 'type T {\n// €']


def native_problems(oracle):
    out = []
    for t in NATIVE_TEXTS:
        r = oracle.ask('diag', json.dumps({'text': t}))
        if not isinstance(r, list):
            out.append('diagnostics(%r): %s' % (t, r)); continue
        b = t.encode('utf-8')
        for s, e, k in r:
            if not (0 <= s <= e <= len(b)):
                out.append('diagnostics(%r): range %d..%d outside the %d-byte text' % (t, s, e, len(b)))
            elif any(0 < p < len(b) and (b[p] & 0xC0) == 0x80 for p in (s, e)):
                out.append('diagnostics(%r): range %d..%d (%s) splits a character' % (t, s, e, k))
    return out


def part(chk, tier, jobs):
    global W
    from mirsym import explore, native
    W = World(['ide'], 'dev', log=chk.log)
    oracle = native.Oracle(native.build('oracle-ide'))
    try:
        found = []
        for n in (1, 2):
            res, complete = explore.explore(factory, (n,), jobs=1)
            chk.add_run('diagnostics pass-through: %d symbolic syntax-error ranges (under-constrained database)' % n, res, complete, {'syntax_errors': n, 'text_bytes': N})
            found += res.violations
        probs = native_problems(oracle)
        if found:
            if probs:
                chk.violation('diagnostics-range', 'bounded', '%s; public API: %s' % (found[0]['why'][0], probs[0]), {'text': probs[0]}, confirmed=True)
            else:
                chk.inconclusive.append('diagnostics kernel: %s, but the public-API corpus shows only well-formed ranges' % found[0]['why'][0])
        else:
            chk.validated += len(NATIVE_TEXTS) - len(probs)
            for p in probs:
                chk.inconclusive.append('public-API diagnostics corpus: ' + p)
    finally:
        oracle.close(); W.cleanup()
