"""C11 — answers after any edit history equal a fresh analysis of the result (kernel: the input side of the analysis; plus a native
history layer through the public API on z3-enumerated edit histories).

Solver-decided (real MIR, under-constrained database):
  (a) ide::Change::apply writes every component a Change carries - package graph; per source root, in list order: the root of each file, the
      module map, the root; every queued content, the last one last - on every path, for symbolic file ids (specs/applyk.py);
  (b) AnalysisHost::apply_change hands every Change to Change::apply on every path (shared with C12 O1).
Together: after any sequence of Changes the database INPUTS are those of a fresh database that is given the final workspace.  That the derived
answers are a function of the inputs is salsa's memoisation contract (third party, not modelled) - and it is exactly what a cache outside the
query system or a stale positional key breaks, so it is exercised by the native layer:
  (c) every edit history of n steps over a two-package workspace template (z3 AllSAT over the step variables), run through AnalysisHost with
      delta Changes; all public answers compared with a fresh host and with a second fresh host asked in the opposite order (specs/histk.py)."""
import os, json, threading
from concurrent.futures import ThreadPoolExecutor
from mirsym import explore, native
from mirsym.world import World
from .runner import Check
from . import applyk, histk

BOUNDS = {'quick': {'full': [1, 2], 'sampled': (3, 1500)}, 'thorough': {'full': [1, 2, 3], 'sampled': (4, 12000)}}

_tl = threading.local()
_oracles = []


def _run(binary, states):
    if not hasattr(_tl, 'o'):
        _tl.o = native.Oracle(binary); _oracles.append(_tl.o)
    return histk.run_history(_tl.o, states)


def histories(chk, binary, tier, seed, jobs):
    B = BOUNDS[tier]
    nh = nbad = nans = nq = 0
    first = []
    plan = [(n, None) for n in B['full']] + [B['sampled']]
    for n, limit in plan:
        for si, st in enumerate(histk.START):
            hs, q = histk.all_histories(st, n, limit=limit, seed=(seed + 1) if limit else 0)
            nq += q
            with ThreadPoolExecutor(max_workers=jobs) as ex:
                for states, (probs, ans) in zip(hs, ex.map(lambda s: _run(binary, s), hs)):
                    nh += 1; nans += ans
                    if probs:
                        nbad += 1
                        if len(first) < 3:
                            first.append((states, probs[0]))
                    else:
                        chk.validated += 1
            chk.log('histories of %d changes from start state %d: %d %s' % (n, si, len(hs), 'enumerated (all)' if limit is None else 'z3 models (seeded)'))
    return nh, nbad, nans, nq, first


def main(tier, seed):
    chk = Check('C11', tier, seed, level='model_checking')
    jobs = int(os.environ.get('VERIF_JOBS', '16'))
    # (a) Change::apply
    found = applyk.part(chk, tier, jobs)
    # (b) AnalysisHost::apply_change reaches Change::apply on every path
    from . import c12
    c12.W = World(['ide'], 'dev', log=chk.log)
    try:
        res, complete = explore.explore(c12.factory, ('apply_change',), jobs=1)
        chk.add_run('AnalysisHost::apply_change (under-constrained): the change is applied on every path', res, complete, {'function': 'apply_change'}, nontrivial_classes=lambda c: c == 'ok')
        found_b = [v for v in res.violations if 'does not apply the change' in v['why'][0]]
    finally:
        c12.W.cleanup()
    # (c) native history layer
    binary = native.build('oracle-ide')
    try:
        nh, nbad, nans, nq, first = histories(chk, binary, tier, seed, jobs)
    finally:
        for o in _oracles:
            o.close()
    chk.log('%d edit histories through the public API (%d answers compared with a fresh analysis and with a fresh analysis asked in reverse order): %d histories with a difference' % (nh, nans, nbad))
    for states, p in first:
        chk.violation('history', 'enumerated', p[:900], {'kind': 'history', 'states': states}, confirmed=True)
    if nh == 0 or nans == 0:
        chk.inconclusive.append('the native history layer compared no answer (vacuous)')
    seen = set()
    for v in found + found_b:
        w = v['why'][0]
        key = w[:60]
        if key in seen:
            continue
        seen.add(key)
        if nbad:
            chk.violation('kernel:Change::apply', 'bounded', '%s; the history layer shows a consequence through the public API, see the other violations' % w[:500], {'kind': 'kernel', 'cex': v.get('cex')}, confirmed=True)
        else:
            chk.inconclusive.append('Change::apply kernel: %s -- but no edit history of the native layer shows a different answer' % w[:300])
    B = BOUNDS[tier]
    chk.assumptions += [
        'kernel claim (solver-decided, under-constrained database): Change::apply performs every write its Change carries (package graph; per root in list order the root of every file, the module map and the root; '
        'every queued content, last one last) for 3 symbolic file ids, roots absent or 0-%d roots with 0-2 files each, 0-%d queued contents; AnalysisHost::apply_change reaches Change::apply on every path' % ((2, 2) if tier == 'quick' else (3, 3)),
        'durability levels are NOT checked: salsa invalidates by the durability an input had before the write, so a durability is a performance hint, not a correctness condition',
        'NOT solver-decided: that derived answers are a function of the inputs (salsa memoisation, interning by (file, index), LRU of parse results). Exercised by the native layer only: every edit history of %s changes '
        'and %d z3-chosen histories of %d changes from 4 start states of a two-package template (text variants that shift positional ids, change exported names and types, empty and broken files, an optional module, '
        'the dependency edge, a module moved between src/ and test/), four schedules each (queries after every change / only at the end / start and end with the layout re-sent / every changed text queued twice in its Change), '
        'compared answer by answer (go-to-definition, references, highlight, hover, completion, prepare-rename at every identifier; diagnostics and semantic highlighting per file) with a fresh host and a fresh host asked in reverse order'
        % (' and '.join(str(x) for x in B['full']), B['sampled'][1] * 4, B['sampled'][0]),
        'the order of a references list is not compared (it is a set in the property)',
        'outside: salsa itself, the glas Vfs that produces the Changes (C13 / C15), histories longer than the bound, other workspaces']
    chk.trusted += ['rustc MIR', 'mirsym interpreter (under-constrained mode)', 'z3', 'salsa 0.17 (memoisation of derived queries)']
    return chk.finish({'native_oracle': {'histories': nh, 'answers_compared': nans, 'histories_with_difference': nbad, 'z3_enumeration_queries': nq}},
                      explanation='Under-constrained symbolic execution of Change::apply / AnalysisHost::apply_change (every write happens on every path), plus z3-enumerated edit histories executed through the public API '
                                  'and compared with fresh analyses. The native layer is executed code, not a solver verdict.')


def replay(path):
    d = json.load(open(path))
    cex = d['cex']
    if cex.get('kind') != 'history':
        print(json.dumps(d, indent=1)[:3000]); return 0
    binary = native.build('oracle-ide')
    o = native.Oracle(binary)
    try:
        probs, ans = histk.run_history(o, cex['states'])
    finally:
        o.close()
    print(json.dumps({'problems': probs[:5], 'answers': ans}, indent=1))
    return 1 if probs else 0
