#!/usr/bin/env python3
"""print the DESIGN.md §7.6 table from seeded/<id>/meta.json"""
import os, json, re
ROOT = os.path.dirname(os.path.dirname(os.path.abspath(__file__)))
rows = []
for d in sorted(os.listdir(os.path.join(ROOT, 'seeded'))):
    mp = os.path.join(ROOT, 'seeded', d, 'meta.json')
    if not os.path.exists(mp):
        continue
    m = json.load(open(mp))
    patch = open(os.path.join(ROOT, 'seeded', d, 'patch.diff')).read() if os.path.exists(os.path.join(ROOT, 'seeded', d, 'patch.diff')) else ''
    files = sorted(set(re.findall(r'^\+\+\+ b/crates/(\S+)', patch, flags=re.M)))
    res = m.get('checks_run_against_it', {})
    det = [k.split()[0] for k, v in res.items() if str(v.get('verdict', '')).startswith('DETECTED')]
    inc = [k.split()[0] for k, v in res.items() if str(v.get('verdict', '')).startswith('INCONCLUSIVE')]
    miss = [k.split()[0] for k, v in res.items() if str(v.get('verdict', '')).startswith('NOT')]
    if m.get('obsolete') or 'OBSOLETE' in json.dumps(m):
        verdict = 'obsolete (the fix commit removed the site)'
    elif det:
        verdict = 'caught by ' + ', '.join(det) + ((' (not by ' + ', '.join(miss) + ')') if miss else '')
    elif inc:
        verdict = 'inconclusive (exit 2) in ' + ', '.join(inc)
    else:
        verdict = '**not caught** (' + ', '.join(miss) + ')' if miss else 'not run'
    need = str(m.get('needs_to_manifest', '')).replace('|', '/').replace('\n', ' ')
    if need.startswith('(see'):
        notes = os.path.join(ROOT, 'seeded', d, 'NOTES.md')
        need = ''
        if os.path.exists(notes):
            t = open(notes).read()
            mm = re.search(r'(?im)^\**\s*(trigger|what is needed|needs?)[^\n]*\n+(.{20,300})', t)
            need = (mm.group(2) if mm else t[:200]).replace('\n', ' ').replace('|', '/')
    rows.append('| %s | %s | %s | %s |' % (d, ', '.join(files)[:60], need[:170], verdict))
print('| id | files changed | needs to manifest | quick checks |')
print('|----|---------------|-------------------|--------------|')
print('\n'.join(rows))
