#!/bin/sh
# run every claimed check (tier $1, default quick) on the current /repo tree; prints exit code and wall time per check
TIER="${1:-quick}"
cd "$(dirname "$0")/.."
for id in $(python3 -c "import json;print(' '.join(c['property_id'] for c in json.load(open('MANIFEST.json'))['checks']))"); do
  s=$(date +%s); ./check $id --tier $TIER > /tmp/runall_$id.log 2>&1; rc=$?; e=$(date +%s)
  echo "$id exit=$rc $((e-s))s $(grep -c '^VIOLATION' /tmp/runall_$id.log) violations $(grep -c '^INCONCLUSIVE' /tmp/runall_$id.log) inconclusive"
done
