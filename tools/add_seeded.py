#!/usr/bin/env python3
"""add_seeded.py <ID> <src dir> <confirm-json-line-file> : copy a confirmed seeded change into /verif/seeded/<ID>/"""
import sys, os, json, shutil
ROOT = os.path.dirname(os.path.dirname(os.path.abspath(__file__)))
mid, src, logf = sys.argv[1:4]
conf = None
for l in open(logf):
    l = l.strip()
    if l.startswith('{'):
        d = json.loads(l)
        if d.get('id') == mid:
            conf = d
if conf is None or not conf.get('confirmed'):
    print('not confirmed:', mid); sys.exit(1)
dst = os.path.join(ROOT, 'seeded', mid)
os.makedirs(dst, exist_ok=True)
for f in ('patch.diff', 'demo.rs', 'NOTES.md'):
    if os.path.exists(os.path.join(src, f)):
        shutil.copy(os.path.join(src, f), os.path.join(dst, f))
props = {json.loads(l)['id']: json.loads(l) for l in open(os.path.join(ROOT, 'properties.jsonl'))}
pid = mid.split('-')[0]
notes = open(os.path.join(src, 'NOTES.md')).read() if os.path.exists(os.path.join(src, 'NOTES.md')) else ''
meta = {'id': mid, 'breaks_property': pid, 'property_title': props[pid]['title'],
        'origin': 'independent sub-agent given only the property text and a scratch worktree',
        'needs_to_manifest': '(see NOTES.md)', 'confirmed_by': 'seeded/confirm.py in a scratch worktree of /repo at ' + conf.get('repo_head', '?'),
        'confirmation': {k: conf[k] for k in ('patch_applies', 'demo_without_change_passes', 'suite_unchanged', 'demo_with_change_fails', 'suite_with_change', 'demo_cmd', 'demo_placement') if k in conf},
        'checks_run_against_it': {}}
mp = os.path.join(dst, 'meta.json')
if os.path.exists(mp):
    old = json.load(open(mp)); meta['checks_run_against_it'] = old.get('checks_run_against_it', {}); meta['needs_to_manifest'] = old.get('needs_to_manifest', meta['needs_to_manifest'])
json.dump(meta, open(mp, 'w'), indent=1)
print('added', dst)
