#!/usr/bin/env python3
"""Run the relevant quick checks against every seeded change (applied to /repo, undone straight afterwards); record the
outcome in seeded/<id>/meta.json and print a table."""
import os, sys, json, subprocess, re, time
ROOT = os.path.dirname(os.path.dirname(os.path.abspath(__file__)))
PAIRS = {'C01-m1': ['C01'], 'C01-m2': ['C01', 'C20'], 'C02-m1': ['C02'], 'C02-m2': ['C02'], 'C03-m1': ['C03'], 'C03-m2': ['C03'], 'C04-m1': ['C04'], 'C04-m2': ['C04'],
         'C05-m1': ['C05'], 'C05-m2': ['C05'], 'C08-m1': ['C08'], 'C08-m2': ['C08'], 'C09-m1': ['C09'], 'C09-m2': ['C09'], 'C10-m1': ['C10'], 'C10-m2': ['C10', 'C09'],
         'C12-m1': ['C12'], 'C12-m2': ['C12'], 'C13-m1': ['C13', 'C14'], 'C13-m2': ['C13', 'C15'], 'C14-m1': ['C14'], 'C14-m2': ['C14'], 'C15-m2': ['C15'],
         'C16-m1': ['C16'], 'C16-m2': ['C16'], 'C18-m1': ['C18'], 'C18-m2': ['C18'], 'C19-m1': ['C19', 'C14'], 'C19-m2': ['C19'], 'C20-m1': ['C20'], 'C20-m2': ['C20'],
         'C02-m3': ['C02'], 'C02-m4': ['C02', 'C01'], 'C03-m3': ['C03'], 'C03-m4': ['C03'], 'C04-m3': ['C04'], 'C04-m4': ['C04'], 'C08-m3': ['C08'], 'C08-m4': ['C08'],
         'C13-m3': ['C13', 'C15'], 'C13-m4': ['C13', 'C15', 'C14'], 'C15-m3': ['C15', 'C14'], 'C15-m4': ['C15'], 'C19-m3': ['C19', 'C14'], 'C19-m4': ['C19', 'C20'],
         'C01-m3': ['C01'], 'C01-m4': ['C01'],
         'C05-m3': ['C05'], 'C05-m4': ['C05'], 'C09-m3': ['C09', 'C05'], 'C09-m4': ['C09'], 'C14-m3': ['C14', 'C20'], 'C14-m4': ['C14', 'C13', 'C15'], 'C18-m3': ['C18'], 'C18-m4': ['C18', 'C05'],
         'C10-m3': ['C10', 'C02'], 'C10-m4': ['C10', 'C09'], 'C12-m3': ['C12'], 'C12-m4': ['C12', 'C16'], 'C16-m3': ['C16'], 'C16-m4': ['C16', 'C13'], 'C20-m3': ['C20', 'C19'], 'C20-m4': ['C20', 'C01'], 'C17-m1': ['C17'], 'C17-m2': ['C17'],
         'C06-m1': ['C06'], 'C06-m2': ['C06'], 'C07-m1': ['C07', 'C06'], 'C07-m2': ['C07', 'C14'], 'C09-m5': ['C09'], 'C09-m6': ['C09'], 'C10-m5': ['C10'], 'C13-m5': ['C13', 'C14'],
         'C15-m1': ['C15'], 'C16-m5': ['C16'], 'C18-m5': ['C18'], 'C20-m3': ['C20', 'C19'],
         'C06-m3': ['C06'], 'C07-m3': ['C07', 'C06'], 'C10-m6': ['C10'], 'C10-m7': ['C10'], 'C11-m1': ['C11', 'C12'], 'C11-m2': ['C11'], 'C16-m6': ['C16'], 'C16-m7': ['C16'],
         'C17-m3': ['C17'], 'C17-m4': ['C17'], 'C20-m5': ['C20', 'C06'], 'C20-m6': ['C20', 'C14'], 'C12-m5': ['C12'], 'C12-m6': ['C12', 'C13', 'C11'],
         'C13-m6': ['C13', 'C15'], 'C13-m7': ['C13'], 'C18-m6': ['C18', 'C05'], 'C18-m7': ['C18'], 'C08-m5': ['C08'], 'C08-m6': ['C08', 'C17'], 'C05-m5': ['C05'], 'C05-m6': ['C05', 'C09'],
         'C11-m3': ['C11', 'C09'], 'C11-m4': ['C11', 'C13'], 'C19-m5': ['C19', 'C14'], 'C19-m6': ['C19'], 'C09-m7': ['C09', 'C05'], 'C09-m8': ['C09'], 'C15-m5': ['C15', 'C16'], 'C15-m6': ['C15', 'C13'],
         'C05-m7': ['C05'], 'C06-m4': ['C06'], 'C07-m4': ['C07', 'C06'], 'C09-m9': ['C09'], 'C10-m8': ['C10', 'C09'], 'C11-m5': ['C11'], 'C12-m7': ['C12'], 'C13-m8': ['C13', 'C15'], 'C16-m8': ['C16'], 'C17-m5': ['C17'],
         'C01-m6': ['C01'], 'C02-m6': ['C02'], 'C03-m6': ['C03'], 'C04-m6': ['C04', 'C01'], 'C13-m9': ['C13', 'C15'], 'C14-m6': ['C14', 'C13'], 'C15-m8': ['C15', 'C13'], 'C20-m8': ['C20', 'C19'], 'C08-m8': ['C08'], 'C12-m8': ['C12', 'C11', 'C13'],
         'C05-m8': ['C05', 'C09'], 'C06-m5': ['C06'], 'C07-m5': ['C07', 'C06'], 'C09-m10': ['C09'], 'C10-m9': ['C10'], 'C11-m6': ['C11'], 'C16-m9': ['C16'], 'C17-m6': ['C17'], 'C18-m9': ['C18'], 'C19-m8': ['C19', 'C13'],
         'C01-m5': ['C01'], 'C02-m5': ['C02'], 'C03-m5': ['C03'], 'C04-m5': ['C04'], 'C08-m7': ['C08'], 'C14-m5': ['C14', 'C13'], 'C15-m7': ['C15', 'C13'], 'C18-m8': ['C18'], 'C19-m7': ['C19', 'C14'], 'C20-m7': ['C20', 'C13', 'C11']}
only = sys.argv[1:]
for mid, checks in PAIRS.items():
    if only and mid not in only:
        continue
    d = os.path.join(ROOT, 'seeded', mid)
    if not os.path.isdir(d):
        print(mid, 'missing'); continue
    mp = os.path.join(d, 'meta.json'); meta = json.load(open(mp))
    for c in checks:
        t0 = time.time()
        r = subprocess.run([os.path.join(ROOT, 'seeded', 'run_against.sh'), os.path.join(d, 'patch.diff'), c, 'quick'], stdout=subprocess.PIPE, stderr=subprocess.STDOUT, text=True)
        out = r.stdout
        m = re.search(r'exit (\d+)', out)
        code = int(m.group(1)) if m else r.returncode
        vio = [l for l in out.split('\n') if l.startswith('VIOLATION')]
        inc = [l for l in out.split('\n') if l.startswith(('INCONCLUSIVE', 'ENGINE'))]
        verdict = {0: 'NOT DETECTED (exit 0)', 1: 'DETECTED (exit 1, natively reproduced)', 2: 'INCONCLUSIVE (exit 2)'}.get(code, 'exit %d' % code)
        if re.search(r'^patch does not apply', out, flags=re.M):
            verdict = 'patch does not apply to the current tree'
        meta.setdefault('checks_run_against_it', {})['%s quick' % c] = {'verdict': verdict, 'first_line': (vio or inc or [''])[0][:400], 'wall_s': round(time.time() - t0)}
        print('%-8s %-4s %-45s %4ds  %s' % (mid, c, verdict, time.time() - t0, (vio or inc or [''])[0][40:200]), flush=True)
    json.dump(meta, open(mp, 'w'), indent=1)
