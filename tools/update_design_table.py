#!/usr/bin/env python3
"""rewrite DESIGN.md §7.6 (between the seeded-table markers) from seeded/<id>/meta.json"""
import os, subprocess, re
ROOT = os.path.dirname(os.path.dirname(os.path.abspath(__file__)))
tab = subprocess.run(['python3', os.path.join(ROOT, 'tools', 'seeded_table.py')], stdout=subprocess.PIPE, text=True).stdout
rows = [l for l in tab.split('\n') if l.startswith('| C')]
caught = sum(1 for r in rows if 'caught by' in r); inc = sum(1 for r in rows if 'inconclusive' in r); miss = sum(1 for r in rows if 'not caught' in r)
obs = sum(1 for r in rows if 'obsolete' in r); notrun = sum(1 for r in rows if r.rstrip().endswith('| not run |'))
head = ('%d seeded changes: %d caught by a quick check (exit 1, natively reproduced), %d only inconclusive (exit 2), %d not caught, %d obsolete, %d not run against the final checks.\n\n'
        % (len(rows), caught, inc, miss, obs, notrun))
p = os.path.join(ROOT, 'DESIGN.md'); s = open(p).read()
s = re.sub(r'<!-- seeded-table-begin -->.*?<!-- seeded-table-end -->', lambda m: '<!-- seeded-table-begin -->\n' + head + tab + '<!-- seeded-table-end -->', s, flags=re.S)
open(p, 'w').write(s)
print(head)
