#!/usr/bin/env python3
"""Regenerate /verif/MANIFEST.json from the tables below."""
import json, os
ROOT = os.path.dirname(os.path.dirname(os.path.abspath(__file__)))
props = [json.loads(l)['id'] for l in open(os.path.join(ROOT, 'properties.jsonl'))]

MIRSYM = 'bounded symbolic execution of the real rustc MIR (path-wise, every fork decided by z3), exhaustive inside the stated bounds; counterexamples replayed natively'
TRUST = ('rustc -Zunpretty=mir as semantics; the mirsym interpreter and its library models (validated on every run against the natively compiled code: '
         'translator validation); z3; bounds as stated in the evidence file')

CHECKS = {
    'C01': dict(cat='model_checking', ref='DESIGN.md §3 C01',
                text='Every sequence of up to 3 (quick) / 4 (thorough) raw token kinds incl. trivia, trivia runs inside 8 grammar contexts, one lexer step on every valid UTF-8 string up to 6 / 8 bytes and the whole bytes->tree pipeline up to 2 / 3 bytes are executed symbolically through the real parse_module / build_tree / logos-generated lexer MIR; on every path the builder log must be one balanced tree emitting exactly the input tokens in order with their own text. Bounded: longer token sequences and longer single tokens are outside the claim (lexer by induction over suffixes).',
                tech='symbolic execution of rustc MIR + z3 (bounded, exhaustive)'),
    'C02': dict(cat='model_checking', ref='DESIGN.md §3 C02',
                text='No path of parse_module panics (fuel, assert!, bump at EOF, index, shift, rowan builder misuse) for every sequence of up to 4 / 5 non-trivia token kinds, 2 / 3 symbolic tokens in each of 37 grammar contexts, every valid UTF-8 string up to 6 / 8 bytes through one lexer step, up to 2 / 3 bytes end to end, in the dev and the release-like MIR profile; nesting growth (look-aheads without bump, call depth) is measured on solver-found witnesses, pumped, extrapolated past the fuel limit and to 10^5 levels and replayed against the native parser.',
                tech='symbolic execution of rustc MIR + z3 (bounded, exhaustive) + native replay of pumped nesting families'),
    'C20': dict(cat='model_checking', ref='DESIGN.md §3 C20',
                text='Kernel claim: (i) on every explored path of the parser (token sequences up to 3 / 4, contexts, raw sequences incl. trivia, bytes up to 2 / 3) every syntax-error range is the range of an existing token or the empty range at the end of the text, and every token produced by one lexer step on strings up to 5 / 7 bytes ends on a char boundary; (ii) convert::to_range over the real line map selects the same text in a reference LSP client (shared with C14); (iii) ide::diagnostics::diagnostics (real MIR, under-constrained database, symbolic syntax-error ranges) hands every parser error range through unchanged; (iv) ide::highlight_related (real MIR, under-constrained database, a usage-search result with symbolic ranges for the queried file AND for another file) reports only ranges of the queried file; (iii)/(iv) findings are replayed through ide::Analysis on fixtures (non-ASCII end of file; two modules). Ranges produced by the other ide queries (navigation targets, references, rename edits, completion ranges, semantic highlights) are outside the claim.',
                tech='symbolic execution of rustc MIR + z3 (bounded, exhaustive)'),
}
NA = {}

def main():
    extra = json.load(open(os.path.join(ROOT, 'tools', 'manifest_extra.json'))) if os.path.exists(os.path.join(ROOT, 'tools', 'manifest_extra.json')) else {}
    CHECKS.update(extra.get('checks', {})); NA.update(extra.get('na', {}))
    for k, t in extra.get('append', {}).items():
        CHECKS[k] = dict(CHECKS[k], text=CHECKS[k]['text'] + ' ' + t)
    checks = []
    for pid in props:
        if pid in CHECKS:
            c = CHECKS[pid]
            checks.append({
                'property_id': pid, 'quick_cmd': './check %s --tier quick' % pid, 'thorough_cmd': './check %s --tier thorough' % pid,
                'evidence_file': 'evidence/%s.json' % pid, 'replay_cmd_template': './check %s --replay {path}' % pid, 'engine': c.get('engine', 'mirsym'),
                'level_claimed': {'category': c['cat'], 'text': c['text'], 'design_ref': c['ref']},
                'level_note': c.get('note', TRUST), 'technique': c['tech']})
    na = [{'property_id': p, 'reason': NA.get(p, 'check under construction (see DESIGN.md §3); not claimed yet')} for p in props if p not in CHECKS]
    m = {'version': 1, 'setup_cmd': './check --setup',
         'hooks': {'guard': 'none', 'enable': 'no source hooks: checks read rustc MIR of /repo\'s working tree (cargo rustc -- -Zunpretty=mir) and compile overlay copies / oracle crates outside /repo',
                   'baseline_off_cmd': 'cd /repo && cargo test --workspace --no-fail-fast --offline', 'source_commits': [], 'add_only': True},
         'engines': [{'name': 'mirsym', 'path': 'mirsym/', 'serves_properties': sorted(CHECKS), 'kind_free_text': MIRSYM},
                     {'name': 'native oracle', 'path': 'native/', 'serves_properties': sorted(CHECKS), 'kind_free_text': 'natively compiled replay / translator-validation helper (not a deciding technique)'}],
         'checks': checks, 'not_applicable': na,
         'notes': 'exit 0 = held on everything explored; exit 1 + VIOLATION line = natively reproduced counterexample; exit 2 = inconclusive (unsupported construct, solver unknown, engine/native disagreement) and never a verdict. fix: commits in /repo: see known_findings.txt.'}
    json.dump(m, open(os.path.join(ROOT, 'MANIFEST.json'), 'w'), indent=1)
    print('checks:', [c['property_id'] for c in checks], 'n/a:', [x['property_id'] for x in na])

main()
